//! Closed environment for the real `async_device::Device` (including Class C): scripted async
//! radio and timer, a poll-driven executor with a no-op waker, fault injection at every radio
//! call position.
use crate::ctx::catch;
use crate::dev::*;
use lorawan_device::async_device::radio::{PhyRxTx, RxConfig, RxMode, RxQuality, RxStatus, Timer, TxConfig};
use lorawan_device::async_device::{Device, JoinResponse, ListenResponse, SendResponse, Timings};
use lorawan_device::verif::VerifMac;
use lorawan_device::{AppEui, AppKey, AppSKey, DevAddr, DevEui, JoinMode, NwkSKey};
use serde::{Deserialize, Serialize};
use std::cell::RefCell;
use std::collections::VecDeque;
use std::future::Future;
use std::pin::pin;
use std::rc::Rc;
use std::task::{Context, Poll, Waker};

#[derive(Clone, Debug, PartialEq, Eq, Hash, Serialize)]
pub enum AOp {
    Tx { pw: i8, rf: Rf, bytes: Vec<u8>, failed: bool },
    SetupRx { rf: Rf, single_ms: Option<u32>, failed: bool },
    RxSingle { got: Option<Vec<u8>>, failed: bool },
    RxCont { got: Option<Vec<u8>>, failed: bool },
    LowPower { failed: bool },
    TimerReset,
    TimerAt(u64),
    TimerDelay(u64),
}

#[derive(Clone, Debug)]
pub struct Delivery {
    pub bytes: Vec<u8>,
    pub judge: Judge,
    /// "rx1" / "rx2" (single-shot windows) or "rxc" (continuous reception)
    pub via: &'static str,
    pub label: String,
    /// MAC snapshot at the moment of delivery is not observable from inside the radio; the
    /// index into the op log lets monitors order deliveries against other operations.
    pub op_index: usize,
}

#[derive(Clone, Debug, PartialEq, Eq, Hash, Serialize, Deserialize)]
pub enum ContItem {
    Frame(Frame),
    /// the listening period ends here (the window timer wins)
    End,
    /// the continuous reception reports an error (CRC error, radio fault) without delivering anything
    Fail,
}

pub struct AInner {
    pub log: Vec<AOp>,
    pub net: Net,
    pub singles: VecDeque<Option<Frame>>,
    pub conts: VecDeque<ContItem>,
    pub deliveries: Vec<Delivery>,
    pub calls: usize,
    pub lp_calls: usize,
    pub fault_lp: Option<usize>,
    pub fault_at: Option<usize>,
    /// number of consecutive radio calls that fail from `fault_at` on (0 and 1: a single call)
    pub fault_burst: usize,
    pub tx_done_ms: u32,
    pub lead_ms: u32,
    pub buffer_ms: u32,
    pub cur_max_len: u8,
    pub region: String,
    pub cur_single: bool,
    pub singles_seen: usize,
}

impl AInner {
    fn fault(&mut self) -> bool {
        let k = self.calls;
        self.calls += 1;
        matches!(self.fault_at, Some(a) if k >= a && k < a + self.fault_burst.max(1))
    }
}

pub struct ARadio<const PW: u8, const GAIN: i8>(pub Rc<RefCell<AInner>>);

impl<const PW: u8, const GAIN: i8> PhyRxTx for ARadio<PW, GAIN> {
    type PhyError = &'static str;
    const ANTENNA_GAIN: i8 = GAIN;
    const MAX_RADIO_POWER: u8 = PW;

    async fn tx(&mut self, config: TxConfig, buf: &[u8]) -> Result<u32, Self::PhyError> {
        let mut g = self.0.borrow_mut();
        let failed = g.fault();
        g.log.push(AOp::Tx { pw: config.pw, rf: rf_of(&config.rf), bytes: buf.to_vec(), failed });
        // the network hears the JoinRequest
        if buf.len() == 23 && buf[0] >> 5 == 0 && !failed {
            g.net.otaa_pending = Some(u16::from_le_bytes([buf[17], buf[18]]));
            g.net.joined = false;
        }
        if failed { Err("tx fault") } else { Ok(g.tx_done_ms) }
    }

    async fn setup_rx(&mut self, config: RxConfig) -> Result<(), Self::PhyError> {
        let mut g = self.0.borrow_mut();
        let failed = g.fault();
        let single_ms = match config.mode {
            RxMode::Single { ms } => Some(ms),
            RxMode::Continuous => None,
        };
        g.log.push(AOp::SetupRx { rf: rf_of(&config.rf), single_ms, failed });
        if failed {
            return Err("setup_rx fault");
        }
        g.cur_max_len = crate::dev::ref_window_limit(&g.region, config.rf.bb.sf.factor() as u8, config.rf.bb.bw.hz(), config.rf.max_payload_len);
        g.cur_single = single_ms.is_some();
        if single_ms.is_some() && g.conts.front() == Some(&ContItem::End) {
            g.conts.pop_front();
        }
        Ok(())
    }

    async fn rx_continuous(&mut self, rx_buf: &mut [u8]) -> Result<(usize, RxQuality), Self::PhyError> {
        loop {
            {
                let mut g = self.0.borrow_mut();
                if let Some(ContItem::Fail) = g.conts.front() {
                    g.conts.pop_front();
                    g.calls += 1;
                    g.log.push(AOp::RxCont { got: None, failed: true });
                    return Err("rx_continuous error");
                }
                if let Some(ContItem::Frame(_)) = g.conts.front() {
                    let failed = g.fault();
                    if failed {
                        g.log.push(AOp::RxCont { got: None, failed });
                        return Err("rx_continuous fault");
                    }
                    let Some(ContItem::Frame(f)) = g.conts.pop_front() else { unreachable!() };
                    if let Some(b) = g.net.build(&f) {
                        let j = g.net.judge(&b, g.cur_max_len);
                        g.net.commit(&b, &j);
                        let op_index = g.log.len();
                        g.deliveries.push(Delivery { bytes: b.clone(), judge: j, via: "rxc", label: crate::checks::c05::frame_label(&f), op_index });
                        g.log.push(AOp::RxCont { got: Some(b.clone()), failed: false });
                        let n = b.len().min(rx_buf.len());
                        rx_buf[..n].copy_from_slice(&b[..n]);
                        return Ok((n, RxQuality::new(-70, 5)));
                    }
                    continue;
                }
            }
            // nothing (more) to receive in this listening period: never completes
            std::future::pending::<()>().await;
        }
    }

    async fn rx_single(&mut self, buf: &mut [u8]) -> Result<RxStatus, Self::PhyError> {
        let mut g = self.0.borrow_mut();
        let failed = g.fault();
        if failed {
            g.log.push(AOp::RxSingle { got: None, failed });
            return Err("rx_single fault");
        }
        g.singles_seen += 1;
        let via = if g.singles_seen % 2 == 1 { "rx1" } else { "rx2" };
        let item = g.singles.pop_front().flatten();
        if let Some(f) = item
            && let Some(b) = g.net.build(&f)
        {
            let j = g.net.judge(&b, g.cur_max_len);
            g.net.commit(&b, &j);
            let op_index = g.log.len();
            g.deliveries.push(Delivery { bytes: b.clone(), judge: j, via, label: crate::checks::c05::frame_label(&f), op_index });
            g.log.push(AOp::RxSingle { got: Some(b.clone()), failed: false });
            let n = b.len().min(buf.len());
            buf[..n].copy_from_slice(&b[..n]);
            return Ok(RxStatus::Rx(n, RxQuality::new(-70, 5)));
        }
        g.log.push(AOp::RxSingle { got: None, failed: false });
        Ok(RxStatus::RxTimeout)
    }

    async fn low_power(&mut self) -> Result<(), Self::PhyError> {
        let mut g = self.0.borrow_mut();
        let k = g.lp_calls;
        g.lp_calls += 1;
        let failed = g.fault() || g.fault_lp == Some(k);
        g.log.push(AOp::LowPower { failed });
        if failed { Err("low_power fault") } else { Ok(()) }
    }
}

impl<const PW: u8, const GAIN: i8> Timings for ARadio<PW, GAIN> {
    fn get_rx_window_lead_time_ms(&self) -> u32 {
        self.0.borrow().lead_ms
    }
    fn get_rx_window_buffer(&self) -> u32 {
        self.0.borrow().buffer_ms
    }
}

pub struct ATimer(pub Rc<RefCell<AInner>>);

impl Timer for ATimer {
    fn reset(&mut self) {
        self.0.borrow_mut().log.push(AOp::TimerReset);
    }
    async fn at(&mut self, millis: u64) {
        self.0.borrow_mut().log.push(AOp::TimerAt(millis));
    }
    async fn delay_ms(&mut self, millis: u64) {
        self.0.borrow_mut().log.push(AOp::TimerDelay(millis));
    }
}

/// Polls a future with a no-op waker. `None` = it stayed pending with nothing scheduled
/// (blocked on the radio); the future is then dropped (cancelled).
pub fn drive<F: Future>(f: F) -> Option<F::Output> {
    let mut f = pin!(f);
    let mut cx = Context::from_waker(Waker::noop());
    for _ in 0..64 {
        if let Poll::Ready(v) = f.as_mut().poll(&mut cx) {
            return Some(v);
        }
    }
    None
}

#[derive(Clone, Debug, Serialize, Deserialize, PartialEq, Eq, Hash)]
pub enum AResp {
    JoinSuccess,
    NoJoinAccept,
    DownlinkReceived(u32),
    SessionExpired,
    NoAck,
    RxComplete,
    ErrRadio,
    ErrMac(String),
    /// the call is waiting for the radio and was cancelled (only legitimate for rxc_listen)
    Blocked,
    Panic(String),
    Done,
}

#[derive(Clone, Debug, Serialize, Deserialize, PartialEq, Eq, Hash, Default)]
pub struct Script {
    pub rx1: Option<Frame>,
    pub rx2: Option<Frame>,
    /// Class C receptions while waiting for RX1 / RX2
    pub rxc1: Vec<Frame>,
    pub rxc2: Vec<Frame>,
    /// index of the radio call (0-based, within this public call) that fails
    pub fault_at: Option<usize>,
    /// the radio stays down for this many consecutive calls from `fault_at` on (0 / 1: one call)
    #[serde(default)]
    pub fault_burst: usize,
    /// the continuous reception before RX1 / before RX2 reports an error once (Class C)
    #[serde(default)]
    pub rxc1_fail: bool,
    #[serde(default)]
    pub rxc2_fail: bool,
    /// the n-th low_power() call of this public call fails (a position that does not shift when a window
    /// hears one more frame)
    #[serde(default)]
    pub fault_low_power: Option<usize>,
}

#[derive(Clone, Debug, Serialize, Deserialize, PartialEq, Eq, Hash)]
pub enum AEv {
    Join(Script),
    Send { confirmed: bool, port: u8, len: usize, script: Script },
    /// rxc_listen with the given receptions (then blocked and cancelled), optional fault
    Listen { frames: Vec<Frame>, fault_at: Option<usize> },
    SetDr(u8),
    SetAdr(bool),
    ClassC(bool),
    Rng(Vec<u32>),
    Persist,
    UseCreds(u8),
}

#[derive(Clone, Debug)]
pub struct AStep {
    pub ev: AEv,
    pub resp: AResp,
    pub ops: Vec<AOp>,
    pub deliveries: Vec<Delivery>,
    pub before: VerifMac,
    pub after: VerifMac,
    pub draws: usize,
    pub downlinks: Vec<(u8, Vec<u8>)>,
    pub class_c: bool,
}

pub type ADev<const PW: u8, const GAIN: i8, const N: usize = 256, const D: usize = 4> = Device<ARadio<PW, GAIN>, ATimer, ScriptRng, N, D>;

/// `N` is the size of the device's radio buffer (256 everywhere except where the buffer size itself
/// is the subject).
/// `D` is the depth of the device's downlink queue (4 everywhere except where the queue itself matters).
pub struct ACore<const PW: u8, const GAIN: i8, const N: usize = 256, const D: usize = 4> {
    pub dev: ADev<PW, GAIN, N, D>,
    pub inner: Rc<RefCell<AInner>>,
    pub rng: ScriptRng,
    pub cfg: DevCfg,
    pub dead: Option<String>,
}

impl<const PW: u8, const GAIN: i8, const N: usize, const D: usize> ACore<PW, GAIN, N, D> {
    pub fn new(cfg: &DevCfg, class_c: bool) -> Self {
        Self::with_session(cfg, class_c, None)
    }

    /// As `new`, but an ABP device is constructed around the given session (the async front-end's way of restoring one).
    pub fn with_session(cfg: &DevCfg, class_c: bool, given: Option<lorawan_device::mac::Session>) -> Self {
        let inner = Rc::new(RefCell::new(AInner {
            log: vec![],
            net: Net::unjoined(),
            singles: VecDeque::new(),
            conts: VecDeque::new(),
            deliveries: vec![],
            calls: 0,
            lp_calls: 0,
            fault_lp: None,
            fault_at: None,
            fault_burst: 1,
            tx_done_ms: 0,
            lead_ms: cfg.offset_ms.unsigned_abs(),
            buffer_ms: cfg.duration_ms.min(cfg.offset_ms.unsigned_abs()),
            cur_max_len: 0,
            region: cfg.region.clone(),
            cur_single: false,
            singles_seen: 0,
        }));
        let rng = ScriptRng::new(vec![]);
        let session = if cfg.otaa {
            None
        } else {
            inner.borrow_mut().net = Net::abp();
            if let Some(fd) = cfg.fcnt_down {
                inner.borrow_mut().net.ref_last = fd;
            }
            Some(given.unwrap_or_else(|| patched_session_cfg(cfg)))
        };
        let mut dev: ADev<PW, GAIN, N, D> = Device::new_with_session(make_region(cfg), ARadio(inner.clone()), ATimer(inner.clone()), rng.clone(), session);
        if class_c {
            dev.enable_class_c();
        }
        if let Some(d) = cfg.dr {
            dev.set_datarate(dr_of(d));
        }
        if let Some(a) = cfg.adr {
            dev.set_adr(a);
        }
        ACore { dev, inner, rng, cfg: cfg.clone(), dead: None }
    }

    pub fn snap(&self) -> VerifMac {
        self.dev.verif_snapshot()
    }

    pub fn net(&self) -> Net {
        self.inner.borrow().net.clone()
    }

    fn load(&self, s: &Script) {
        let mut g = self.inner.borrow_mut();
        g.singles.clear();
        g.conts.clear();
        g.singles.push_back(s.rx1.clone());
        g.singles.push_back(s.rx2.clone());
        for f in &s.rxc1 {
            g.conts.push_back(ContItem::Frame(f.clone()));
        }
        if s.rxc1_fail {
            g.conts.push_back(ContItem::Fail);
        }
        g.conts.push_back(ContItem::End);
        for f in &s.rxc2 {
            g.conts.push_back(ContItem::Frame(f.clone()));
        }
        if s.rxc2_fail {
            g.conts.push_back(ContItem::Fail);
        }
        g.conts.push_back(ContItem::End);
        g.fault_at = s.fault_at;
        g.fault_burst = s.fault_burst;
        g.fault_lp = s.fault_low_power;
        g.lp_calls = 0;
        g.calls = 0;
        g.singles_seen = 0;
    }

    pub fn apply(&mut self, ev: &AEv) -> Option<AStep> {
        if self.dead.is_some() {
            return None;
        }
        let before = self.snap();
        let n0 = self.inner.borrow().log.len();
        let d0 = self.inner.borrow().deliveries.len();
        self.rng.begin_call();
        match ev {
            AEv::Join(s) => self.load(s),
            AEv::Send { script, .. } => self.load(script),
            _ => {}
        }
        let dev = &mut self.dev;
        let r: Result<AResp, String> = match ev {
            AEv::Join(_) => {
                let (de, ae, ak) = creds(self.inner.borrow().net.creds);
                let mode = JoinMode::OTAA { deveui: DevEui::from(de), appeui: AppEui::from(ae), appkey: AppKey::from(ak) };
                catch(|| match drive(dev.join(&mode)) {
                    None => AResp::Blocked,
                    Some(Ok(JoinResponse::JoinSuccess)) => AResp::JoinSuccess,
                    Some(Ok(JoinResponse::NoJoinAccept)) => AResp::NoJoinAccept,
                    Some(Err(e)) => err_of(e),
                })
            }
            AEv::Send { confirmed, port, len, .. } => {
                let data: Vec<u8> = (0..*len).map(|i| (i as u8).wrapping_mul(3).wrapping_add(1)).collect();
                catch(|| match drive(dev.send(&data, *port, *confirmed)) {
                    None => AResp::Blocked,
                    Some(Ok(SendResponse::DownlinkReceived(n))) => AResp::DownlinkReceived(n),
                    Some(Ok(SendResponse::SessionExpired)) => AResp::SessionExpired,
                    Some(Ok(SendResponse::NoAck)) => AResp::NoAck,
                    Some(Ok(SendResponse::RxComplete)) => AResp::RxComplete,
                    Some(Err(e)) => err_of(e),
                })
            }
            AEv::Listen { frames, fault_at } => {
                {
                    let mut g = self.inner.borrow_mut();
                    g.singles.clear();
                    g.conts.clear();
                    for f in frames {
                        g.conts.push_back(ContItem::Frame(f.clone()));
                    }
                    g.fault_at = *fault_at;
                    g.fault_burst = 1;
                    g.calls = 0;
                    // idle Class C listening uses the RX2 parameters; the size limit is taken
                    // from the configuration the device itself reports for RXC
                }
                catch(|| match drive(dev.rxc_listen()) {
                    None => AResp::Blocked,
                    Some(Ok(ListenResponse::DownlinkReceived(n))) => AResp::DownlinkReceived(n),
                    Some(Ok(ListenResponse::SessionExpired)) => AResp::SessionExpired,
                    Some(Err(e)) => err_of(e),
                })
            }
            AEv::SetDr(d) => {
                dev.set_datarate(dr_of(*d));
                Ok(AResp::Done)
            }
            AEv::SetAdr(a) => {
                dev.set_adr(*a);
                Ok(AResp::Done)
            }
            AEv::ClassC(on) => {
                if *on { dev.enable_class_c() } else { dev.disable_class_c() }
                Ok(AResp::Done)
            }
            AEv::UseCreds(k) => {
                self.inner.borrow_mut().net.creds = *k;
                Ok(AResp::Done)
            }
            AEv::Rng(p) => {
                self.rng.set_prefix(p.clone());
                Ok(AResp::Done)
            }
            AEv::Persist => catch(|| {
                // the async front-end takes a session only at construction; persistence of a
                // running device is exercised through the nb front-end and through C20's twin
                AResp::Done
            }),
        };
        let resp = match r {
            Ok(r) => r,
            Err(p) => {
                self.dead = Some(p.clone());
                AResp::Panic(p)
            }
        };
        let mut downlinks = vec![];
        // (an application that holds its downlinks collects them only when it starts every other uplink)
        let collect = !self.cfg.hold_downlinks
            || (matches!(ev, AEv::Send { .. })
                && match before.state {
                    lorawan_device::verif::VerifMacState::Joined(j) => j.fcnt_up % 2 == 0,
                    _ => true,
                });
        if self.dead.is_none() && collect {
            while let Some(d) = self.dev.take_downlink() {
                downlinks.push((d.fport, d.data.to_vec()));
            }
        }
        if matches!(resp, AResp::NoJoinAccept) {
            self.inner.borrow_mut().net.otaa_pending = None;
        }
        let g = self.inner.borrow();
        Some(AStep {
            ev: ev.clone(),
            resp,
            ops: g.log[n0..].to_vec(),
            deliveries: g.deliveries[d0..]
                .iter()
                .map(|d| Delivery { op_index: d.op_index - n0, ..d.clone() })
                .collect(),
            before,
            after: self.dev.verif_snapshot(),
            draws: self.rng.draws(),
            downlinks,
            class_c: self.dev.verif_class_c(),
        })
    }

}

fn err_of<E>(e: lorawan_device::async_device::Error<E>) -> AResp {
    match e {
        lorawan_device::async_device::Error::Radio(_) => AResp::ErrRadio,
        lorawan_device::async_device::Error::Mac(m) => AResp::ErrMac(format!("{m:?}")),
    }
}

pub fn short_aresp(r: &AResp) -> String {
    match r {
        AResp::DownlinkReceived(_) => "DownlinkReceived".into(),
        AResp::Panic(_) => "Panic".into(),
        r => format!("{r:?}"),
    }
}

// keep the unused-import lint quiet for items only used in type positions
#[allow(dead_code)]
fn _types(_: NwkSKey, _: AppSKey, _: DevAddr) {}
