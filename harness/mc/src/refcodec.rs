//! Independent LoRaWAN 1.0.x frame encoder / decoder / key derivation, written from the
//! specification (LoRaWAN 1.0.3 §4, §6.2) on top of `refcrypto`.
use crate::refcrypto::Aes128;

#[derive(Clone, Debug, PartialEq, Eq)]
pub struct DataDesc {
    /// MType 2..=5 (UnconfUp, UnconfDown, ConfUp, ConfDown)
    pub mtype: u8,
    pub devaddr: u32,
    pub adr: bool,
    /// uplink only
    pub adr_ack_req: bool,
    pub ack: bool,
    /// downlink only
    pub f_pending: bool,
    pub fcnt: u32,
    pub fopts: Vec<u8>,
    pub fport: Option<u8>,
    pub frm: Vec<u8>,
}

impl DataDesc {
    pub fn uplink(&self) -> bool {
        self.mtype == 2 || self.mtype == 4
    }
    pub fn confirmed(&self) -> bool {
        self.mtype == 4 || self.mtype == 5
    }
}

#[derive(Clone, Copy, Debug, PartialEq, Eq)]
pub enum Forbidden {
    FOptsTooLong,
    FOptsWithPort0,
    PayloadWithoutPort,
}

fn block(first: u8, dir: u8, devaddr: u32, fcnt: u32, last: u8) -> [u8; 16] {
    let mut b = [0u8; 16];
    b[0] = first;
    b[5] = dir;
    b[6..10].copy_from_slice(&devaddr.to_le_bytes());
    b[10..14].copy_from_slice(&fcnt.to_le_bytes());
    b[15] = last;
    b
}

/// AES-CTR style FRMPayload transformation (encrypt == decrypt).
pub fn crypt_frm(key: &[u8; 16], dir: u8, devaddr: u32, fcnt: u32, data: &mut [u8]) {
    let aes = Aes128::new(key);
    for (i, chunk) in data.chunks_mut(16).enumerate() {
        let s = aes.encrypt(&block(0x01, dir, devaddr, fcnt, (i + 1) as u8));
        for (j, b) in chunk.iter_mut().enumerate() {
            *b ^= s[j];
        }
    }
}

pub fn data_mic(nwk: &[u8; 16], dir: u8, devaddr: u32, fcnt: u32, msg: &[u8]) -> [u8; 4] {
    let mut m = Vec::with_capacity(16 + msg.len());
    m.extend_from_slice(&block(0x49, dir, devaddr, fcnt, msg.len() as u8));
    m.extend_from_slice(msg);
    let t = Aes128::new(nwk).cmac(&m);
    [t[0], t[1], t[2], t[3]]
}

pub fn plain_mic(key: &[u8; 16], msg: &[u8]) -> [u8; 4] {
    let t = Aes128::new(key).cmac(msg);
    [t[0], t[1], t[2], t[3]]
}

/// Is this description forbidden by the specification?
pub fn forbidden(d: &DataDesc) -> Option<Forbidden> {
    if d.fopts.len() > 15 {
        return Some(Forbidden::FOptsTooLong);
    }
    if d.fport == Some(0) && !d.fopts.is_empty() {
        return Some(Forbidden::FOptsWithPort0);
    }
    if d.fport.is_none() && !d.frm.is_empty() {
        return Some(Forbidden::PayloadWithoutPort);
    }
    None
}

pub fn encode_data(d: &DataDesc, nwk: &[u8; 16], app: &[u8; 16]) -> Result<Vec<u8>, Forbidden> {
    if let Some(f) = forbidden(d) {
        return Err(f);
    }
    let up = d.uplink();
    let dir = if up { 0 } else { 1 };
    let mut out = vec![d.mtype << 5];
    out.extend_from_slice(&d.devaddr.to_le_bytes());
    let mut fctrl = d.fopts.len() as u8;
    if d.adr {
        fctrl |= 0x80;
    }
    if up && d.adr_ack_req {
        fctrl |= 0x40;
    }
    if d.ack {
        fctrl |= 0x20;
    }
    if !up && d.f_pending {
        fctrl |= 0x10;
    }
    out.push(fctrl);
    out.extend_from_slice(&(d.fcnt as u16).to_le_bytes());
    out.extend_from_slice(&d.fopts);
    if let Some(p) = d.fport {
        out.push(p);
        let mut frm = d.frm.clone();
        let key = if p == 0 { nwk } else { app };
        crypt_frm(key, dir, d.devaddr, d.fcnt, &mut frm);
        out.extend_from_slice(&frm);
    }
    let mic = data_mic(nwk, dir, d.devaddr, d.fcnt, &out);
    out.extend_from_slice(&mic);
    Ok(out)
}

#[derive(Clone, Copy, Debug, PartialEq, Eq)]
pub enum ParseErr {
    Empty,
    Major,
    MType,
    JoinLen,
    DataTooShort,
    FOptsOverrun,
}

#[derive(Clone, Debug, PartialEq, Eq)]
pub enum Parsed {
    JoinRequest { join_eui: [u8; 8], dev_eui: [u8; 8], dev_nonce: u16, mic: [u8; 4] },
    JoinAccept { len: usize },
    Data(DataView),
}

/// Structural view of a data frame (still encrypted).
#[derive(Clone, Debug, PartialEq, Eq)]
pub struct DataView {
    pub mtype: u8,
    pub devaddr: u32,
    pub fctrl: u8,
    pub fcnt16: u16,
    pub fopts: Vec<u8>,
    pub fport: Option<u8>,
    pub frm_enc: Vec<u8>,
    pub mic: [u8; 4],
}

impl DataView {
    pub fn uplink(&self) -> bool {
        self.mtype == 2 || self.mtype == 4
    }
    pub fn dir(&self) -> u8 {
        if self.uplink() { 0 } else { 1 }
    }
}

/// Total structural decoder.
pub fn parse(b: &[u8]) -> Result<Parsed, ParseErr> {
    if b.is_empty() {
        return Err(ParseErr::Empty);
    }
    if b[0] & 3 != 0 {
        return Err(ParseErr::Major);
    }
    match b[0] >> 5 {
        0 => {
            if b.len() != 23 {
                return Err(ParseErr::JoinLen);
            }
            Ok(Parsed::JoinRequest {
                join_eui: b[1..9].try_into().unwrap(),
                dev_eui: b[9..17].try_into().unwrap(),
                dev_nonce: u16::from_le_bytes([b[17], b[18]]),
                mic: b[19..23].try_into().unwrap(),
            })
        }
        1 => {
            if b.len() != 17 && b.len() != 33 {
                return Err(ParseErr::JoinLen);
            }
            Ok(Parsed::JoinAccept { len: b.len() })
        }
        2..=5 => parse_data(b).map(Parsed::Data),
        _ => Err(ParseErr::MType),
    }
}

pub fn parse_data(b: &[u8]) -> Result<DataView, ParseErr> {
    if b.len() < 12 {
        return Err(ParseErr::DataTooShort);
    }
    if b[0] & 3 != 0 {
        return Err(ParseErr::Major);
    }
    let mtype = b[0] >> 5;
    if !(2..=5).contains(&mtype) {
        return Err(ParseErr::MType);
    }
    let fol = (b[5] & 0x0f) as usize;
    let micoff = b.len() - 4;
    if 8 + fol > micoff {
        return Err(ParseErr::FOptsOverrun);
    }
    let fopts = b[8..8 + fol].to_vec();
    let (fport, frm_enc) = if 8 + fol < micoff {
        (Some(b[8 + fol]), b[9 + fol..micoff].to_vec())
    } else {
        (None, vec![])
    };
    Ok(DataView {
        mtype,
        devaddr: u32::from_le_bytes(b[1..5].try_into().unwrap()),
        fctrl: b[5],
        fcnt16: u16::from_le_bytes([b[6], b[7]]),
        fopts,
        fport,
        frm_enc,
        mic: b[micoff..].try_into().unwrap(),
    })
}

/// Does the MIC verify for the given full 32-bit counter (frame's own direction)?
pub fn data_mic_ok(b: &[u8], v: &DataView, nwk: &[u8; 16], fcnt: u32) -> bool {
    data_mic(nwk, v.dir(), v.devaddr, fcnt, &b[..b.len() - 4]) == v.mic
}

/// Plaintext of the FRMPayload for full counter `fcnt`.
pub fn data_plain(v: &DataView, nwk: &[u8; 16], app: &[u8; 16], fcnt: u32) -> Vec<u8> {
    let mut frm = v.frm_enc.clone();
    if let Some(p) = v.fport {
        let key = if p == 0 { nwk } else { app };
        crypt_frm(key, v.dir(), v.devaddr, fcnt, &mut frm);
    }
    frm
}

#[derive(Clone, Debug, PartialEq, Eq)]
pub struct JoinAcceptDesc {
    pub join_nonce: u32,
    pub net_id: u32,
    pub devaddr: u32,
    pub dl_settings: u8,
    pub rx_delay: u8,
    pub cflist: Option<[u8; 16]>,
}

pub fn join_accept_plain(d: &JoinAcceptDesc) -> Vec<u8> {
    let mut p = vec![0x20];
    p.extend_from_slice(&d.join_nonce.to_le_bytes()[..3]);
    p.extend_from_slice(&d.net_id.to_le_bytes()[..3]);
    p.extend_from_slice(&d.devaddr.to_le_bytes());
    p.push(d.dl_settings);
    p.push(d.rx_delay);
    if let Some(c) = &d.cflist {
        p.extend_from_slice(c);
    }
    p
}

pub fn encode_join_accept(d: &JoinAcceptDesc, appkey: &[u8; 16]) -> Vec<u8> {
    let mut p = join_accept_plain(d);
    let mic = plain_mic(appkey, &p);
    p.extend_from_slice(&mic);
    let aes = Aes128::new(appkey);
    for chunk in p[1..].chunks_exact_mut(16) {
        let blk: [u8; 16] = (&*chunk).try_into().unwrap();
        chunk.copy_from_slice(&aes.decrypt(&blk));
    }
    p
}

/// Device-side decode: returns (plaintext incl. MHDR and MIC, mic_ok).
pub fn decode_join_accept(b: &[u8], appkey: &[u8; 16]) -> Option<(Vec<u8>, bool)> {
    if b.is_empty() || b[0] & 3 != 0 || b[0] >> 5 != 1 || (b.len() != 17 && b.len() != 33) {
        return None;
    }
    let aes = Aes128::new(appkey);
    let mut p = b.to_vec();
    for chunk in p[1..].chunks_exact_mut(16) {
        let blk: [u8; 16] = (&*chunk).try_into().unwrap();
        chunk.copy_from_slice(&aes.encrypt(&blk));
    }
    let n = p.len();
    let ok = plain_mic(appkey, &p[..n - 4]) == p[n - 4..];
    Some((p, ok))
}

pub fn join_accept_fields(plain: &[u8]) -> JoinAcceptDesc {
    JoinAcceptDesc {
        join_nonce: u32::from_le_bytes([plain[1], plain[2], plain[3], 0]),
        net_id: u32::from_le_bytes([plain[4], plain[5], plain[6], 0]),
        devaddr: u32::from_le_bytes(plain[7..11].try_into().unwrap()),
        dl_settings: plain[11],
        rx_delay: plain[12],
        cflist: if plain.len() == 33 { Some(plain[13..29].try_into().unwrap()) } else { None },
    }
}

/// (NwkSKey, AppSKey) per LoRaWAN 1.0.x §6.2.5.
pub fn derive_keys(appkey: &[u8; 16], join_nonce: u32, net_id: u32, dev_nonce: u16) -> ([u8; 16], [u8; 16]) {
    let aes = Aes128::new(appkey);
    let mut b = [0u8; 16];
    b[1..4].copy_from_slice(&join_nonce.to_le_bytes()[..3]);
    b[4..7].copy_from_slice(&net_id.to_le_bytes()[..3]);
    b[7..9].copy_from_slice(&dev_nonce.to_le_bytes());
    b[0] = 1;
    let n = aes.encrypt(&b);
    b[0] = 2;
    let a = aes.encrypt(&b);
    (n, a)
}

pub fn encode_join_request(join_eui: &[u8; 8], dev_eui: &[u8; 8], dev_nonce: u16, appkey: &[u8; 16]) -> Vec<u8> {
    let mut p = vec![0x00];
    p.extend_from_slice(join_eui);
    p.extend_from_slice(dev_eui);
    p.extend_from_slice(&dev_nonce.to_le_bytes());
    let mic = plain_mic(appkey, &p);
    p.extend_from_slice(&mic);
    p
}
