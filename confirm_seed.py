#!/usr/bin/env python3
"""Confirm a candidate seeded change independently of whoever wrote it.

    ./confirm_seed.py <candidate dir with patch.diff, demo.rs, meta.json> [--wt /tmp/confirm/wtN]

In a scratch git worktree of /repo (created if missing, detached at HEAD; never /repo itself):
  1. the demonstration is copied to meta.demo_dest and run with meta.demo_cmd on the pristine
     tree                                              -> must pass (>=1 test, 0 failed);
  2. patch.diff is applied, the demonstration is run   -> must compile and fail (>=1 failed test);
  3. with the patch applied and the demonstration removed, the unedited suite is run
     (cargo test --workspace --no-fail-fast --offline) -> 0 failed, same number passed as pristine
     (the one upstream flaky test is retried once);
  4. lorawan-device also builds with --features serde;
  5. everything is reverted.
Prints a JSON object with the counts; exit 0 iff confirmed.
"""
import json, os, re, subprocess, sys, shutil

FLAKY = "test_class_c_data_before_rx2"


def sh(cmd, cwd, timeout=3600):
    p = subprocess.run(cmd, shell=True, cwd=cwd, stdout=subprocess.PIPE, stderr=subprocess.STDOUT, text=True, timeout=timeout)
    return p.returncode, p.stdout


def counts(out):
    ps = sum(int(x) for x in re.findall(r"test result: \w+\. (\d+) passed", out))
    fl = sum(int(x) for x in re.findall(r"test result: \w+\. \d+ passed; (\d+) failed", out))
    return ps, fl


def main():
    cand = os.path.abspath(sys.argv[1])
    wt = "/tmp/confirm/wt0"
    if "--wt" in sys.argv:
        wt = sys.argv[sys.argv.index("--wt") + 1]
    meta = json.load(open(f"{cand}/meta.json"))
    if not os.path.isdir(wt):
        os.makedirs(os.path.dirname(wt), exist_ok=True)
        rc, out = sh(f"git -C /repo worktree add --detach {wt} HEAD", "/")
        if rc != 0:
            print(out)
            return 2
    sh("git checkout -q -- . && git clean -fdq -e target", wt)
    sh("git checkout -q --detach $(git -C /repo rev-parse HEAD)", wt)
    dest = os.path.join(wt, meta["demo_dest"])
    cmd = meta["demo_cmd"]
    cmd = re.sub(r"cd\s+\S+\s*&&\s*", "", cmd)
    res = {"candidate": cand}
    try:
        os.makedirs(os.path.dirname(dest), exist_ok=True)
        shutil.copy(f"{cand}/demo.rs", dest)
        rc, out = sh(cmd, wt)
        res["demo_pristine"] = dict(zip(("pass", "fail"), counts(out)), rc=rc)
        if rc != 0:
            res["demo_pristine"]["tail"] = out[-1500:]
        rc, out = sh(f"git apply {cand}/patch.diff", wt)
        res["patch_applies"] = rc == 0
        if rc != 0:
            res["error"] = out[-600:]
            print(json.dumps(res, indent=1))
            return 1
        rc, out = sh(cmd, wt)
        res["demo_mutant"] = dict(zip(("pass", "fail"), counts(out)), rc=rc, compile_error=("error[E" in out or "could not compile" in out))
        os.remove(dest)
        rc, out = sh("cargo test --workspace --no-fail-fast --offline", wt)
        ps, fl = counts(out)
        failed = re.findall(r"^test (\S+) \.\.\. FAILED", out, re.M)
        if failed and all(FLAKY in f for f in failed):
            rc, out = sh("cargo test --workspace --no-fail-fast --offline", wt)
            ps, fl = counts(out)
            failed = re.findall(r"^test (\S+) \.\.\. FAILED", out, re.M)
        res["suite"] = {"pass": ps, "fail": fl, "failed_tests": failed[:10], "rc": rc}
        if "could not compile" in out:
            res["suite"]["compile_error"] = True
        rc, out = sh("cargo build -p lorawan-device --features serde --offline", wt)
        res["serde_build_ok"] = rc == 0
    finally:
        if os.path.exists(dest):
            os.remove(dest)
        sh("git checkout -q -- . && git clean -fdq -e target", wt)
    ok = (res.get("demo_pristine", {}).get("rc") == 0 and res["demo_pristine"]["pass"] >= 1 and res["demo_pristine"]["fail"] == 0
          and res.get("demo_mutant", {}).get("fail", 0) >= 1 and not res["demo_mutant"]["compile_error"]
          and res.get("suite", {}).get("fail") == 0 and res["suite"]["pass"] >= 363 and not res["suite"].get("compile_error")
          and res.get("serde_build_ok"))
    res["confirmed"] = bool(ok)
    print(json.dumps(res, indent=1))
    return 0 if ok else 1


if __name__ == "__main__":
    sys.exit(main())
