#!/usr/bin/env python3
"""Confirm candidate changes written by sub-agents and file the confirmed ones under seeded/.

    ./ingest_seed.py --round 5 /tmp/seed5/C09/_seed/A /tmp/seed5/C09/_seed/B ...

Each candidate directory holds patch.diff, demo.rs, meta.json (property, demo_dest, demo_cmd, files,
needs, what) and notes.md. Every candidate is confirmed by confirm_seed.py in its own scratch
worktree (up to --jobs at a time); a confirmed one is copied to seeded/<property>-<n>/ with the
confirmation counts added to its meta.json. Rejected candidates are listed with the reason.
"""
import argparse, json, os, shutil, subprocess, sys
from concurrent.futures import ThreadPoolExecutor

VERIF = os.path.dirname(os.path.abspath(__file__))


def confirm(args):
    cand, slot = args
    p = subprocess.run([f"{VERIF}/confirm_seed.py", cand, "--wt", f"/tmp/confirm/wt{slot}"], stdout=subprocess.PIPE, stderr=subprocess.STDOUT, text=True)
    try:
        res = json.loads(p.stdout[p.stdout.index("{"):])
    except Exception:
        res = {"confirmed": False, "error": p.stdout[-800:]}
    return cand, res


def main():
    ap = argparse.ArgumentParser()
    ap.add_argument("cands", nargs="+")
    ap.add_argument("--round", type=int, required=True)
    ap.add_argument("--jobs", type=int, default=3)
    a = ap.parse_args()
    slots = list(range(a.jobs))
    results = []
    # one worktree per slot: run in waves
    for i in range(0, len(a.cands), a.jobs):
        wave = a.cands[i:i + a.jobs]
        with ThreadPoolExecutor(a.jobs) as ex:
            results += list(ex.map(confirm, [(c, s) for c, s in zip(wave, slots)]))
    for cand, res in results:
        meta = json.load(open(f"{cand}/meta.json"))
        prop = meta["property"]
        if not res.get("confirmed"):
            print(f"REJECTED {cand}: {json.dumps({k: v for k, v in res.items() if k != 'candidate'})[:1200]}")
            continue
        n = 1
        while os.path.exists(f"{VERIF}/seeded/{prop}-{n}"):
            n += 1
        dst = f"{VERIF}/seeded/{prop}-{n}"
        os.makedirs(dst)
        for f in ("patch.diff", "demo.rs", "notes.md"):
            if os.path.exists(f"{cand}/{f}"):
                shutil.copy(f"{cand}/{f}", f"{dst}/{f}")
        meta.update({
            "mutant": n, "round": a.round,
            "origin": "fresh sub-agent given only the property record and a scratch worktree of the repository",
            "confirmed": True,
            "confirmation": {
                "demo_pristine_pass": res["demo_pristine"]["pass"], "demo_pristine_fail": res["demo_pristine"]["fail"],
                "demo_mutant_pass": res["demo_mutant"]["pass"], "demo_mutant_fail": res["demo_mutant"]["fail"],
                "suite_pass": res["suite"]["pass"], "suite_fail": res["suite"]["fail"],
                "repo_commit": subprocess.run("git -C /repo rev-parse --short HEAD", shell=True, stdout=subprocess.PIPE, text=True).stdout.strip(),
            },
            "apply": f"git -C /repo apply /verif/seeded/{prop}-{n}/patch.diff ; ./check <ID> ; git -C /repo checkout -- .",
        })
        json.dump(meta, open(f"{dst}/meta.json", "w"), indent=1)
        print(f"CONFIRMED {cand} -> seeded/{prop}-{n}  ({meta.get('what', '')[:100]})")
    return 0


if __name__ == "__main__":
    sys.exit(main())
