#!/usr/bin/env python3
"""Run the registered checks against the seeded property-breaking changes.

Nothing here touches /repo: every worker gets its own scratch copy of the repository's
working tree and of the harness (path dependencies rewritten to the copy, own target
directory) under --scratch (default /tmp/seedrun), applies one seeded patch there, runs the
target property's check (and, with --all, every other check), reverts the patch and goes on.
The scratch directory is removed at the end.

    ./run_seeded.py                    # every seeded change, target check, quick tier
    ./run_seeded.py C04-3 C10-4        # only these
    ./run_seeded.py --tier thorough --only-missed
    ./run_seeded.py --all              # every check against every change (slow)

Results: seeded/<id>/meta.json gets a "current" member (verdict of the checks as they are
now, with the /verif commit), and seeded/VERDICTS.md is rewritten from all meta.json files.
A seeded change counts as caught when the target check exits 1 with a VIOLATION line of the
target property; exit 2 (machinery failure, e.g. the change does not compile with the hooks
on) is recorded separately and never counts as caught.
"""
import argparse, json, os, queue, re, shutil, subprocess, sys, threading, time

VERIF = os.path.dirname(os.path.abspath(__file__))
REPO = "/repo"


def sh(cmd, cwd=None, env=None, timeout=None):
    p = subprocess.run(cmd, shell=True, cwd=cwd, env=env, timeout=timeout,
                       stdout=subprocess.PIPE, stderr=subprocess.STDOUT, text=True)
    return p.returncode, p.stdout


def setup_worker(root, i, copy_target):
    w = os.path.join(root, f"w{i}")
    os.makedirs(w)
    sh(f"rsync -a --exclude target --exclude .git {REPO}/ {w}/repo/")
    os.makedirs(f"{w}/verif/evidence")
    os.makedirs(f"{w}/verif/replays")
    sh(f"rsync -a --exclude target {VERIF}/harness/ {w}/verif/harness/")
    for f in ("check", "known_findings.json", "properties.jsonl"):
        shutil.copy(os.path.join(VERIF, f), f"{w}/verif/{f}")
    for rel in ("mc/Cargo.toml", "mc13/Cargo.toml", ".cargo/config.toml"):
        p = f"{w}/verif/harness/{rel}"
        s = open(p).read()
        s = s.replace('"/repo/', f'"{w}/repo/').replace('"/verif/harness/target"', f'"{w}/verif/harness/target"')
        open(p, "w").write(s)
    if copy_target and os.path.isdir(f"{VERIF}/harness/target"):
        sh(f"cp -a {VERIF}/harness/target {w}/verif/harness/target")
    return w


def run_check(w, prop, tier, threads, timeout):
    env = dict(os.environ)
    env["VERIF_ROOT"] = f"{w}/verif"
    env["RAYON_NUM_THREADS"] = str(threads)
    env["CARGO_BUILD_JOBS"] = str(threads)
    t0 = time.time()
    try:
        rc, out = sh(f"./check {prop} --tier {tier}", cwd=f"{w}/verif", env=env, timeout=timeout)
    except subprocess.TimeoutExpired:
        return {"rc": 2, "violations": [], "summary": f"timeout after {timeout}s", "wall": timeout}
    viol = re.findall(r"^VIOLATION property=(\S+) replay=(\S+)", out, re.M)
    summ = [l for l in out.splitlines() if re.match(r"^C\d\d (OK|FAIL)", l)]
    tail = "" if summ else "\n".join(out.splitlines()[-8:])
    return {"rc": rc, "violations": [os.path.basename(r) for p, r in viol if p == prop],
            "summary": summ[-1] if summ else tail, "wall": round(time.time() - t0, 1)}


def worker(w, jobs, results, args, lock):
    while True:
        try:
            sid = jobs.get_nowait()
        except queue.Empty:
            return
        d = os.path.join(VERIF, "seeded", sid)
        meta = json.load(open(f"{d}/meta.json"))
        prop = meta["property"]
        rc, out = sh(f"patch -p1 -s --no-backup-if-mismatch < {d}/patch.diff", cwd=f"{w}/repo")
        res = {"applied": rc == 0}
        if rc != 0:
            res["error"] = out[-400:]
        else:
            props = [prop] + ([f"C{n:02d}" for n in range(1, 21) if f"C{n:02d}" != prop] if args.all else [])
            res["checks"] = {}
            for p in props:
                r = run_check(w, p, args.tier, args.threads, args.timeout)
                res["checks"][p] = r
        rc2, out2 = sh(f"patch -p1 -s -R --no-backup-if-mismatch < {d}/patch.diff", cwd=f"{w}/repo")
        if rc2 != 0 or sh(f"diff -rq --exclude target --exclude .git {REPO} {w}/repo")[0] != 0:
            # never continue on a tree that is not the pristine one
            sh(f"rsync -a --delete --exclude target --exclude .git {REPO}/ {w}/repo/")
            sh(f"find {w}/repo -name '*.rs' | xargs touch")
        with lock:
            results[sid] = res
            t = res.get("checks", {}).get(prop, {})
            print(f"{sid}: target {prop} rc={t.get('rc')} viol={len(t.get('violations', []))} "
                  f"wall={t.get('wall')} {'' if res['applied'] else 'PATCH DID NOT APPLY'}", flush=True)


def main():
    ap = argparse.ArgumentParser()
    ap.add_argument("ids", nargs="*")
    ap.add_argument("--tier", default="quick")
    ap.add_argument("--workers", type=int, default=4)
    ap.add_argument("--threads", type=int, default=4)
    ap.add_argument("--timeout", type=int, default=1800)
    ap.add_argument("--all", action="store_true")
    ap.add_argument("--only-missed", action="store_true", help="only changes whose current verdict is 'not caught'")
    ap.add_argument("--scratch", default="/tmp/seedrun")
    ap.add_argument("--table-only", action="store_true")
    args = ap.parse_args()

    all_ids = sorted(d for d in os.listdir(f"{VERIF}/seeded") if os.path.isfile(f"{VERIF}/seeded/{d}/meta.json"))
    if args.table_only:
        write_table(all_ids)
        return 0
    ids = args.ids or all_ids
    if args.only_missed:
        ids = [i for i in ids if not json.load(open(f"{VERIF}/seeded/{i}/meta.json")).get("current", {}).get("caught_by_target_" + args.tier)]
    dirty = sh("git status --porcelain --untracked-files=no", cwd=REPO)[1].strip()
    if dirty:
        print("refusing: /repo has uncommitted changes to tracked files", file=sys.stderr)
        return 2
    commit = sh("git rev-parse --short HEAD", cwd=VERIF)[1].strip()
    vdirty = bool(sh("git status --porcelain --untracked-files=no -- harness check known_findings.json", cwd=VERIF)[1].strip())
    repo_commit = sh("git rev-parse --short HEAD", cwd=REPO)[1].strip()
    root = args.scratch
    shutil.rmtree(root, ignore_errors=True)
    os.makedirs(root)
    try:
        nw = min(args.workers, len(ids))
        ws = [setup_worker(root, i, True) for i in range(nw)]
        # the scratch set-up must itself be sound: the first worker runs one check on the unchanged copy
        base = run_check(ws[0], "C16", "quick", args.threads, args.timeout)
        if base["rc"] != 0:
            print("scratch baseline failed:", base, file=sys.stderr)
            return 2
        jobs = queue.Queue()
        for i in ids:
            jobs.put(i)
        results, lock = {}, threading.Lock()
        ts = [threading.Thread(target=worker, args=(w, jobs, results, args, lock)) for w in ws]
        for t in ts:
            t.start()
        for t in ts:
            t.join()
    finally:
        shutil.rmtree(root, ignore_errors=True)
    for sid, res in results.items():
        p = f"{VERIF}/seeded/{sid}/meta.json"
        meta = json.load(open(p))
        prop = meta["property"]
        cur = meta.get("current", {})
        cur["verif_commit"] = commit + ("+uncommitted" if vdirty else "")
        cur["repo_commit"] = repo_commit
        if not res["applied"]:
            cur["patch_applies"] = False
            cur["error"] = res.get("error")
        else:
            cur["patch_applies"] = True
            t = res["checks"][prop]
            cur["caught_by_target_" + args.tier] = (t["rc"] == 1 and len(t["violations"]) > 0)
            cur["target_" + args.tier] = t
            if args.all:
                cur["caught_by_" + args.tier] = sorted(p for p, r in res["checks"].items() if r["rc"] == 1 and r["violations"])
                cur["machinery_failures_" + args.tier] = sorted(p for p, r in res["checks"].items() if r["rc"] not in (0, 1))
        meta["current"] = cur
        json.dump(meta, open(p, "w"), indent=1)
        open(p, "a").write("\n")
    write_table(all_ids)
    missed = [s for s in ids if not json.load(open(f"{VERIF}/seeded/{s}/meta.json")).get("current", {}).get("caught_by_target_" + args.tier)]
    print(f"done: {len(ids)} run, {len(ids) - len(missed)} caught by the target check ({args.tier}); missed: {missed}")
    return 0


def write_table(all_ids):
    rows = []
    for sid in all_ids:
        m = json.load(open(f"{VERIF}/seeded/{sid}/meta.json"))
        c = m.get("current", {})
        needs = m.get("needs") or m.get("needs_to_manifest") or ""
        what = m.get("what") or ""
        if not what:
            try:
                first = open(f"{VERIF}/seeded/{sid}/notes.md").readline().strip().lstrip("# ").strip()
                what = re.sub(r"^C\d\d\s*/\s*\S+\s*[—-]\s*", "", first)
            except OSError:
                pass

        def v(k):
            x = c.get(k)
            return "—" if x is None else ("yes" if x else "**no**")
        others = ", ".join(p for p in (c.get("caught_by_quick") or m.get("caught_by_quick") or []) if p != m["property"])
        rows.append(f"| {sid} | {m.get('round', '')} | {what[:150]} | {v('caught_by_target_quick')} | {v('caught_by_target_thorough')} | {others} |")
    with open(f"{VERIF}/seeded/VERDICTS.md", "w") as f:
        f.write("Generated by run_seeded.py from seeded/*/meta.json (member `current`). Do not edit.\n\n")
        f.write("| change | round | what it does | target quick | target thorough | other quick checks that fire |\n|---|---|---|---|---|---|\n")
        f.write("\n".join(rows) + "\n")
    # the same table inside DESIGN.md, between its markers
    dp = f"{VERIF}/DESIGN.md"
    d = open(dp).read()
    b, e = "<!-- MUTANT_TABLE_BEGIN -->", "<!-- MUTANT_TABLE_END -->"
    if b in d and e in d:
        table = "| change | round | what it does | target quick | target thorough | other checks that fired (quick tier; for rounds 1-2 as recorded when the change was seeded) |\n|---|---|---|---|---|---|\n" + "\n".join(rows) + "\n"
        d = d[:d.index(b) + len(b)] + "\n" + table + d[d.index(e):]
        open(dp, "w").write(d)


if __name__ == "__main__":
    sys.exit(main())
